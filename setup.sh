#!/bin/sh
# Build the framework from files on disk only (offline). Only what the CLAIMED checks need is built, and a
# failure of one property's build does not stop the others (./check reports it for that property).
export CARGO_NET_OFFLINE=true
cd /verif
python3 - <<'PY'
import json, os, subprocess, sys
ROOT = "/verif"
claimed = {}
for name in sorted(os.listdir(os.path.join(ROOT, "checks"))):
    if name.endswith(".json"):
        c = json.load(open(os.path.join(ROOT, "checks", name)))
        if c.get("claimed"):
            claimed[name[:-5]] = c
rc = 0
lean_targets, bins, need_cli = [], [], False
for pid, c in claimed.items():
    lean_targets += c["props"] + c.get("extra_lean_targets", []) + ([c["driver"]] if c.get("driver") else [])
    bins.append(c["harness_bin"])
    need_cli = need_cli or c.get("needs_cli", False)
    for t in c.get("translators", []):
        subprocess.run(["python3", os.path.join(ROOT, "translate", t)], cwd=ROOT)
lean_targets = list(dict.fromkeys(lean_targets))
r = subprocess.run(["lake", "build"] + lean_targets, cwd=os.path.join(ROOT, "lean"))
if r.returncode != 0:
    # fall back to per-target builds so one broken property does not block the rest
    for t in lean_targets:
        subprocess.run(["lake", "build", t], cwd=os.path.join(ROOT, "lean"))
args = ["cargo", "build", "--offline"]
for b in dict.fromkeys(bins):
    args += ["--bin", b]
r = subprocess.run(args, cwd=os.path.join(ROOT, "harness"))
if r.returncode != 0:
    for b in dict.fromkeys(bins):
        subprocess.run(["cargo", "build", "--offline", "--bin", b], cwd=os.path.join(ROOT, "harness"))
if need_cli:
    subprocess.run(["cargo", "build", "--offline", "-p", "nitrogql-cli", "--target-dir", "/verif/.cache/target-cli"], cwd="/repo")
sys.exit(0)
PY
