#!/bin/sh
# Build the framework from files on disk only (offline).
set -e
export CARGO_NET_OFFLINE=true
cd /verif/lean
lake build
for f in Driver/C*.lean; do
  n=$(basename "$f" .lean | tr 'C' 'c')
  lake build "nv_$n"
done
cd /verif/harness && cargo build --offline --bins
cd /repo && cargo build --offline -p nitrogql-cli --target-dir /verif/.cache/target-cli
